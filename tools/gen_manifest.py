#!/usr/bin/env python3
"""Regenerates MANIFEST.json from the table below (single source of truth for what is claimed)."""
import json
import os

VERIF = os.path.dirname(os.path.dirname(os.path.abspath(__file__)))

TECH = "contract-based deductive verification: sidecar contracts on the real /repo functions, VCs generated from their Python ast by pyvc, discharged by z3 (cvc5 second back end)"

CLAIMED = {
    'C01': dict(
        text="Postconditions transcribed from the reference sentences on the real Take (cyclic extension both ways, any count, any "
             "length), Drop (every integer incl. overshoot), First, Reverse (atoms unchanged), Rotate (outer axis, rank-aware roll "
             "contract), Split by one size (ceil(n/s) members, the last one short) and by several sizes used cyclically (loop invariant "
             "over spec functions), Cut (members between the given positions, explicit-position array_split contract), At/Index on "
             "sequences, Integer-Divide on atoms (floor toward minus infinity) and the string Find generator (first match at or "
             "after the previous one + 1, terminates), over sequences of arbitrary length; predicate truth tables over the class "
             "lattice and the verb dispatch tables. Take's remainder arithmetic rests on seven Lean-checked integer lemmas. Match: "
             "bounded stand-in only (nested / ragged operands up to a stated size, labelled). A verb oracle (bounded, labelled: about 1500 "
             "applications of Take, Drop, Rotate, Split, Cut, At/Index, Integer-Divide, Remainder incl. operands beyond 2**53, Reshape with a "
             "reused shape operand, against oracles written from the reference sentences) runs on every check.",
        note="Partial: arithmetic/comparison/min/max ufunc verbs, grade, group, shape, transpose, amend, reshape, range, "
             "format are NOT under contract (NumPy ufunc semantics would be an assumed contract). Assumed: NumPy tile/concatenate/roll/"
             "array_split/slicing contracts as stated in contracts/c01.py; operands are vectors or outer axes; numpy backend.",
        ref="DESIGN.md section 4 C01",
        technique=TECH + "; cvc5 first for the sequence-heavy Take/Split goals; Lean 4 for the modular-arithmetic lemmas"),
    'C02': dict(
        text="Adverb contracts on the real eval_adverb_* functions over symbolic sequences of arbitrary length with the verb as an "
             "uninterpreted function: Each / Each-2 / Each-left / Each-right / Each-pair apply the verb to exactly the members (pairs, "
             "neighbours) in order, Over and Over-neutral are the left fold (Lean: foldl_cons), Scan-over's last member is the fold "
             "(Lean: scanl_last), Converge/While/Iterate loop contracts; the ufunc shortcut and dispatch tables map each operator to "
             "the reduce/accumulate of THAT operator under the stated guards (exhaustive table check); atom right operand of Each-left / "
             "Each-right gives f(a;b) / f(b;a); a string operand of Each-pair reaches the verb as characters; the compiled shortcuts of "
             "f/a and f\\a denote the adverb's value (rows of C05's value-equivalence check); Iterate and Scan-Iterating with the count's "
             "CLASS as a ghost (a computed count is a NumPy integer: the loop test must not depend on it). Expansion oracle (bounded, labelled: "
             "about 670 cases of every adverb x verb x operand kind incl. strings, nested lists, matrices, zero divisors, computed counts, "
             "two-adverb chains, against the separately evaluated plain applications of the verb) runs on every check.",
        note="Assumed: functools.reduce / itertools.accumulate as left fold / prefix folds; NumPy ufunc.reduce agrees with the verb "
             "(assumed identities; the shortcut guards themselves - object arrays, zero divisors - are exercised by the bounded oracle only); "
             "string operands of the other adverbs and adverb chains are covered by the bounded oracle, not by contracts. Termination of "
             "Converge/While is not claimed.",
        ref="DESIGN.md section 4 C02",
        technique=TECH + "; Lean 4 for the fold lemmas; exhaustive enumeration of the operator shortcut table"),
    'C04': dict(
        text="Frame conditions by ownership typing over the real AST, for every input: no verb, adverb or backend helper (every "
             "function of dyads.py, monads.py, adverbs.py, merge_projections, vec_fn/vec_fn2/rec_fn/kg_asarray) writes through an "
             "operand - alias-aware (slices are views, asarray/reshape/to_numpy may return their argument, shallow copies share "
             "members), modular (callee summaries: which parameters are written, what the result may alias); the only operand "
             "writes are the documented dictionary updates of Join/Drop under a dictionary test; the evaluator writes nothing into "
             "the tree it evaluates except the memo field _compiled; _resolve_fn's f_args is caller-allocated at every call site; the scope "
             "pushed for a call is popped on the normal and the exceptional exit (C03's contract of _eval_fn re-verified here); compiled "
             "code is only called on the kinds of value it was admitted for, so the per-node memo does not make a later evaluation depend "
             "on what the variables held earlier (structural obligation shared with C05).",
        note="Partial: history-independence of the parse/compile caches (a relation between runs) and arity fields written on operator "
             "nodes during parsing are NOT decided. Literal dictionaries: C10's obligations; validity of compiled code after a rebinding: C05/C09's (call-time guard). "
             "Assumed: NumPy/builtin allocation contracts tabulated in pyvc/frames.py; unknown callees do not write their arguments. "
             "A typing failure has no solver model: the replay is a fixed battery on the real verb tables (bounded).",
        ref="DESIGN.md section 4 C04",
        technique="frame conditions on the real functions discharged by flow-sensitive ownership/alias typing of their Python ast "
                  "(modular, callee summaries), re-read from /repo on every run; bounded native battery as replay"),
    'C05': dict(
        text="Mechanism contracts of the expression compiler: for every IR production the source template emitted by the real "
             "_ir_to_source of both backends, parsed by CPython's ast, is the expected expression for THAT operator with operands in "
             "place; every IR the real _ast_to_ir can produce is mapped by both backends or is a documented miss that falls back to "
             "the interpreter; at all three call sites an exception while "
             "fetching arguments or running compiled code leads to the interpreter path only. Positional agreement of parameters: "
             "_collect_params and its recursive closure _walk are proved, for IR trees of any depth, to list the distinct variable names in "
             "first-occurrence order (structural recursion, decreases on the tree; the enumeration to depth 3 stays as cross-check of the "
             "specification's renderings); that _ast_to_ir names the variables in that order is read off the code (assumed). Value level (numpy backend): every template denotes the value of the interpreter's verb "
             "for that operator on every admitted operand - the template and the verb's decision list (pre-guards, shortcut with its "
             "guards, generic fold) are read from the real source and compared as terms modulo seven declared NumPy/Python identities; "
             "every call of compiled code is guarded by the admission test (exact int / float, ndarray) on the actual arguments (structural "
             "obligation on the three call sites and on the guard's body); while that guard is established it discharges the compile-time "
             "mechanisms (admission by exact type, Define through __setitem__, caches emptied on rebinding), which are otherwise required; "
             "compile-sequences (bounded, labelled): same-shape expressions with the variables in different orders, in one interpreter.",
        note="Not decided: comparisons on object arrays ((l==r)*1 vs vec_fn2/safe_equal), the torch backend's values (torch is not "
             "installed), integer overflow (compiled code computes with Python integers, the interpreter with int64). Assumed: the "
             "NumPy identities I1-I7 of contracts/c05_values.py. Three divergences of the pinned tree were found by these obligations "
             "and repaired (known_findings.json).",
        ref="DESIGN.md section 4 C05 and section 8",
        technique=TECH + "; CPython ast of the emitted template as the correspondence oracle; term equivalence modulo declared NumPy "
                         "identities for the value level; modular verification of the recursive closure _walk for positional agreement"),
    'C12': dict(
        text="Termination of the real lexer and recursive-descent parser for every input string: every while loop has an integer variant "
             "(bounded below, strictly decreasing), the mutual recursion decreases the lexicographic measure (len(t)+1-i, rank), progress "
             "postconditions on every reader. Work bound: ghost `frontier` discipline - every parser-level reader starts at or after the "
             "position up to which the text has been consumed, and nothing is parsed after a caught parse error (no backtracking). No "
             "effect on variables: the evaluator entries carry `requires false` for callers inside the parser, and no parser function "
             "stores into the interpreter object (frame: the parser holds no state between parses). Unbounded in the input; "
             "discharged by z3 from VCs generated from the current source.",
        note="Assumed: termination of callees outside the parser (get_fn_arity, is_empty, backend.kg_asarray, node constructors); Python ints "
             "mathematical; pyvc's encoding of the accepted Python subset; the step from 'no re-parse' to 'linear number of reader calls' "
             "is a paper argument (laminar intervals), builtin string operations count as one step; repeatability is argued from the "
             "frame, not an SMT obligation.",
        ref="DESIGN.md section 4 C12, Appendix A.1"),
    'C03': dict(
        text="Context-stack discipline of the real evaluator by assume-guarantee over eval -> _eval_fn -> call -> eval: on normal AND "
             "exceptional exit the scope sequence (same objects, same order, same minimum) is what it was at entry, whatever the body "
             "does and wherever it raises; KlongContext as a stack of finite maps (push/pop/innermost lookup/assignment to the first "
             "holder/deletion with whole-stack frames); a conditional evaluates its test once and exactly one branch chosen by Klong "
             "truth (ghost evaluation log); every scope pushed for a function call binds .f to the function being applied. Projection "
             "flattening: merge_projections (and has_none) proved against the positional specification 'fill the holes left to right at every "
             "step; a None argument leaves its hole open' for any number of steps and any lengths - loop invariants on both loops, variants, "
             "two inductive lemmas in Lean (hole count monotone, a filled entry stays) - with the exhaustive enumeration over the language's "
             "domain kept as a bounded cross-check of the specification's renderings (labelled). An exception raised inside compiled code ends in the "
             "interpreter path (C05's contract of eval re-verified here): the call form agrees with the substituted body where compiled "
             "code fails.",
        note="Assumed: verb functions, Python callables and compiled expressions are stack-preserving; the documented .module exception "
             "(ghost flag); module-scope lookup rules not under contract; the positional construction of the call frame in _eval_fn is "
             "not yet under contract; substitution semantics of whole bodies is a whole-evaluator statement and not decided.",
        ref="DESIGN.md section 4 C03, Appendix A.4",
        technique=TECH + "; merge_projections: loop invariants over positional spec functions with Lean 4 lemmas for the two inductions "
                         "(an exhaustive enumeration over the language's finite domain is kept as bounded cross-check)"),
    'C09': dict(
        text="klong[k]=v / klong[k] / del klong[k] through the context-assignment contract (wrap on both paths; compiled cache cleared unless every call of compiled code is guarded, "
             "functions read back as KGFnWrapper bound to the name); KGLambda collects the first n reserved symbols (positional) and "
             "calls the Python callable exactly once with exactly the frame values in order, klong first when requested, returning its "
             "result; KGFnWrapper.__call__ rejects a wrong argument count before any evaluation, uses the current definition when it is "
             "still a function (the original otherwise) and makes exactly one klong.call(KGCall(fn.a, args, fn.arity)); "
             "KGFnWrapper.__init__ stores the name resolved at construction; _resolve_fn resolves a symbol bound to a bare KGLambda to "
             "that callable; the arity given to a function at parse time (get_fn_arity._e, structural recursion, modular) is the "
             "number of distinct function variables occurring anywhere in its body, and get_fn_arity returns exactly that on every path; a "
             "Python list passed through the wrapper is converted by the interpreter's own list conversion (not NumPy's homogenising asarray).",
        note="Assumed: inspect.signature and np.asarray as pure functions; the evaluator contract of C03; the call frame maps x,y,z "
             "positionally (built by _eval_fn, not under contract); _handle_import and _find_symbol not under contract; a Python None "
             "argument is an empty projection slot (see the C20 known finding).",
        ref="DESIGN.md section 4 C09, Appendix A.4"),
    'C07': dict(
        text="Frame postconditions of the real gradient entry points on the normal AND the exceptional exit, the differentiated "
             "function being an arbitrary callee that may raise at any call: every parameter symbol is bound to the same object as at "
             "entry (ghost binding map; restore-in-finally of call_fn_with_tensors / single_param_fn / eval_dyad_grad.func), and the "
             "contents of every array of the caller are unchanged (alias-aware: np.asarray may return its argument, element assignment "
             "writes in place, read/write array lemmas instantiated at each write); what a restoring closure assumes about its saved "
             "originals is an obligation where the closure is created; the torch gradient helpers neither switch gradient tracking on "
             "nor write in place on a tensor the caller holds (ownership typing).",
        note="Assumed: NumPy aliasing/copy contracts as stated, the differentiated function neither rebinds the symbols under "
             "differentiation nor writes arrays in place, composition of the C03/C09 context contracts as the binding map; torch's "
             "compute_* functions (external) not under contract; values of gradients are C06 (not applicable).",
        ref="DESIGN.md section 4 C07, Appendix A.5"),
    'C10': dict(
        text="Whole-view postconditions on the dictionary branches of the real Join (both operand orders), Find, Drop, Size and Each over "
             "an abstract finite map (ghost domain/value maps): the result IS the operand dictionary, view' = view[k -> v] resp. view minus k "
             "with all other keys of all dictionaries unchanged, missing key -> :undefined, f applied once per pair with the pair as "
             "argument; the string+string branch cannot capture a dictionary; a literal is parsed into a call of copy_lambda whose body "
             "is a deep copy (AST-structural checks); binding a dictionary to a name (klong[k]=d, a::d) stores that very object "
             "(aliases stay aliases).",
        note="Assumed: Python dict as a finite map keyed by hash/== with items() yielding each pair once; deepcopy returns a fresh equal "
             "object; the induction over operation histories from the per-operation contracts is the standard ADT argument (stated); "
             "At/Index on dictionaries not under contract. Distinctness of keys of different kinds with the same text is NOT covered by "
             "the proof (it is the assumed hash/== contract of the key classes): a bounded battery (key-kinds, labelled) looks at it and "
             "reports a recorded known finding - a character key collides with a string / symbol key of the same text.",
        ref="DESIGN.md section 4 C10"),
    'C11': dict(
        text="Strings: the real writer's loop proves kg_write_string(s) = '\"' ++ enc(s) ++ '\"' and the real reader's loop proves "
             "read_string(t,i) = dec(t,i) against positional spec functions; Lean proves dec(enc s ++ '\"' ++ tail) = (s, |enc s|+1) "
             "under the follow condition; characters (0cX), symbols (:name) and the dispatch order of kg_write over the class lattice. "
             "read_list returns exactly the sequence of lexeme values between the brackets, in order (whole-view loop invariant: no "
             "member is re-interpreted). eval_sys_read (.r): the channel is left exactly behind the object that was returned (channel model: "
             "text and position; successive .r calls read successive objects). Numbers, dictionaries, whole lists end-to-end, Form/Format "
             "and the round trip through a file (.w then .r): bounded stand-in per value kind only (labelled, not counted as proved).",
        note="Assumed: hand pairing of the SMT / Python / Lean renderings of the spec functions (narrowed by a bounded cross-check each "
             "run); float/int repr round trips. Known finding: a written dictionary reads back as an unevaluated call object.",
        ref="DESIGN.md section 4 C11",
        technique=TECH + "; Lean 4 for the inductive round-trip lemma; bounded enumeration stand-in for lists/numbers/dictionaries"),
    'C19': dict(
        text="Typestate contract on the real Table class: every read of the data frame whose rows flow to a result (and every write of "
             "it outside commit) happens with an empty insert buffer; insert/insertb extend the buffer by exactly the given rows in "
             "order and touch nothing else; commit empties the buffer; .insert validates the column count and routes single rows / "
             "batches; has_index <=> idx_cols is not None; set_index/reset_index commit first and keep idx_cols consistent. Indexed "
             "tables: Table.commit against the merge specification over abstract frames - never raises, the new frame has one row per "
             "key (the last inserted of the buffer, else the stored row), is sorted, and holds exactly the stored and buffered keys. "
             ".db: at the call of con.execute every table name is bound to the frame that table's get_dataframe() returned in THIS "
             "invocation (loop invariant over the table map; a frame remembered from an earlier query does not satisfy it), and a table name "
             "is never published in the function's own namespace; a table owns its rows (ownership typing: what .table is given and what "
             "t?col hands out share no memory with the frame); .index passes the key columns in the order given.",
        note="Assumed: pandas contracts as stated in contracts/c19_commit.py (intersection, loc selection / aligned assignment raising "
             "on duplicate labels, isin, duplicated, drop_duplicates(subset), concat, sort_index not stable); DuckDB resolves a table name "
             "to the frame bound in the calling frame and computes the query over it (the SQL result itself is NOT decided); the unindexed "
             "append order rests on the NumPy concatenate contract.",
        ref="DESIGN.md section 4 C19, Appendix A.6"),
    'C13': dict(
        text="Frame codec of the real IPC transport: encode_message(id,m) = id.bytes ++ be32(|p|) ++ p; over a ghost stream and cursor, "
             "stream_recv_msg returns (id, loads(p)) and advances the cursor by exactly 20+|p| whenever the stream at the cursor starts "
             "with that frame - consecutive frames are delivered one by one, in order, from any cursor; request construction "
             "(f(:name,args) -> KGRemoteFnCall, function proxy passes the first `arity` of x,y,z, dictionary get/set commands); the "
             "listener answers under the same message id with exactly the value the server-side evaluation returned (no reshaping of "
             "the reply); KGUndefined pickles by reference (AST-structural + native identity check); stream_send_msg hands the whole frame to "
             "the writer in one write() before its first await (a connection has several senders).",
        note="Assumed: StreamReader.readexactly returns the next n bytes however they arrived (this carries 'however the stream is "
             "split'); pickle/struct/uuid codecs inverse on their domains. Not decided: value equivalence of pickled values and the "
             "server-side evaluation.",
        ref="DESIGN.md section 4 C13"),
    'C14': dict(
        text="Safety of the real listener: _listen resolves exactly the future stored under the received id with that frame's message "
             "and removes it, an unknown id touches no pending future, a request is answered once under the same id; "
             "_cleanup_pending_responses needs an exception instance unless the table is empty, visits every pending future and leaves "
             "the table empty; every iteration of _run's connection loop runs the cleanup exactly once on every exit path with its "
             "precondition satisfied, under arbitrary interference at the awaits (running may flip, calls may register futures); "
             "NetworkClient.call has registered its future under the request id before the request can reach the wire and sends on the "
             "writer the listener owns; a frame that cannot be decoded fails the connection (it is not skipped); on every exit "
             "path execute_server_command has completed the request's result future exactly once (unless the event loop itself refused); "
             "frames are written in one piece (C13's structural obligation, also a row here).",
        note="NOT decided: liveness ('never hangs', prompt failure after loss), the is_open-then-register window between threads, close "
             "racing with calls. Assumed: asyncio run-to-completion between awaits, Future contracts, the C13 transport contracts.",
        ref="DESIGN.md section 4 C14"),
    'C18': dict(
        text="Monitor reasoning on the real FileCache, sound for every interleaving: the guarded fields are only touched while the lock "
             "is held (an obligation at each access); at every acquire the guarded state is havocked and the monitor invariant G "
             "(accounting == sum of counted entries, 0 <= cur <= max, heap/table consistency, claims carry 0 bytes) assumed, at every "
             "release G is proved; the source asserts are obligations under that havoc; waits on futures happen with the lock released; "
             "the writer task clears an entry's writing flag only after the file holds the new contents; a load that finishes while a "
             "write of the file is pending leaves the entry to the write; an unfinished write owns its entry and no second write of the "
             "file is submitted next to it (ghost wtask, invariant GW proved at every release); a counted entry whose task has completed "
             "accounts exactly the length of its contents (invariant GL, proved at every release). Table cache: the per-file append lock protocol of "
             "PandasDataFrameCache.update as rely/guarantee - append_locks only touched under the cache lock, a lock registered only when "
             "none is registered in the same critical section, the read-merge-write runs under the registered lock, and no lock is "
             "acquired while this thread holds it (the retry's precondition).",
        note="NOT decided: linearizability of returned values, progress in general (only 'no self-deadlock on a non-reentrant lock'). "
             "Assumed: threading.Lock mutual exclusion; tasks run at any time on other threads; msum lemmas (Lean); the rely of the "
             "append-lock argument (other threads keep the same protocol); WeakValueDictionary keeps an entry while a strong reference "
             "exists.",
        ref="DESIGN.md section 4 C18"),
    'C20': dict(
        text="Per-request handler contract on the real closures (_get/_post): the route's handler is called exactly once with "
             "dict(query)/dict(form), the response is str(result); any failure gives status 400 and escapes nowhere; the closure "
             "registered by an iteration of the route loops captures that iteration's handler and route, wraps Klong functions in "
             "KGFnWrapper and skips non-monads and calls; shutdown cancels the task and cleans the runner once; .webc given the handle "
             ".web returned shuts that server down exactly once and returns 1 (0 for anything else); websocket _listen "
             "receives, decodes and dispatches one message to .ws.m exactly once in order; the connection is pushed for the call and "
             "popped on every exit; result or failure delivered to the waiting future exactly once; a failure of the .ws.m handler does not "
             "escape _listen (later messages are still handled). ws-send-kinds (bounded, labelled): encode_message on 15 kinds of value "
             "incl. computed numbers (NumPy scalars) and dictionaries with keys of two kinds.",
        note="Assumed: aiohttp routing and request parsing, websockets, JSON codec, sockets ('after .webc the port no longer answers' "
             "rests on aiohttp). Bounded stand-in: 13 JSON kinds of websocket message through klong['.ws.m'](conn, msg); known "
             "finding: a JSON null message is not handed to the handler body (known_findings.json).",
        ref="DESIGN.md section 4 C20"),
    'C15': dict(
        text="Representation invariant of the real KGTimerHandler / _call_periodic / run closure over ghost state (stopped flag, number of "
             "live loop handles): at most one live handle, none once stopped; .timerc returns 1 exactly when it stopped a live timer; a "
             "tick that serves boundary m and ends at `now` schedules the next one exactly at boundary max(m, floor((now-start)/interval))+1 "
             "(floor by a skolem constant, independent of how the code computes it): never twice for one boundary, not in the past, no "
             "boundary skipped that was not missed - also when the loop dispatched the tick up to its clock resolution BEFORE the deadline; "
             "the timer goes on exactly when the callback returned a true value and did not stop it; callback invoked exactly once per "
             "tick; argument validation and KGFnWrapper wrapping in .timer. Holds for every callback behaviour admitted by the rely "
             "condition (cancel self, return anything, raise); a tick whose callback raises (or returns a value without a truth value) ends "
             "the timer: nothing scheduled, delegate cleared, a later .timerc returns 0 (exceptional postcondition).",
        note="Assumed: asyncio loop contract (handles fire at most once, not earlier than the clock resolution before their time, never "
             "after cancel; run-to-completion; resolution < interval), floats as reals, callbacks reach the timer only through cancel(). "
             "Behaviour after a callback raises is not specified by the property and not constrained.",
        ref="DESIGN.md section 4 C15, Appendix A.2"),
    'C16': dict(
        text="Single-client proof over the symbolic image of FileCache: quiescent invariant Q (accounting cur == sum of counted entries via "
             "msum point-update lemmas, 0 <= cur <= max, heap/table consistency, every cached entry equals its file) is established by "
             "__init__ and preserved by update_file / get_file / unload_file on normal AND exceptional exits; worker tasks (_write_file, "
             "_load_file, update_file_futures_and_memory, recover_memory with loop invariants and variant, _unload_file, "
             "update_file_access_time) under the weaker in-lock invariant W; KeyValueStorage.get/set/__getitem__/__setitem__: set => file "
             "contents == ser(v), other paths untouched; get == deser(file) cached or not; never-set / directory key reads :undefined. "
             "Table store: PandasDataFrameCache.update against the documented merge over abstract frames (stored rows win on equal index, "
             "new index values added, result unique and sorted) with pandas' concat / duplicated / sort_index (NOT stable) as assumed "
             "contracts; a table handed out by TableStorage.get is a new object whose frame shares nothing with the cache entry "
             "(ownership typing of Table.__init__ and TableStorage.get); get_dataframe turns 'names no file' (never set, or a directory of the "
             "store) into 'no table' and lets nothing but MemoryError escape.",
        note="Assumed: single client (a task runs when its submitter waits for it), ghost file model, pickle round trip, join injective on "
             "normalised keys, library contracts of dict/heapq/Lock/ThreadPoolExecutor/pandas, msum lemmas (Lean); the table merge uses "
             "get_file/update_file as abstract consequences of the FileCache contracts (assumed link). Not decided: LRU order, alias "
             "spellings of one path, termination of the merge's retry recursion.",
        ref="DESIGN.md section 4 C16, Appendix A.3"),
    'C17': dict(
        text="Over a ghost three-level file model (Python buffer / OS cache / disk): _write_file ends with os[path]==data and, with "
             "use_fsync, disk[path]==data; at EVERY statement boundary of _write_file every cell of every other path is unchanged "
             "(crash isolation); update_file waits for the write task; KeyValueStorage.set returns only after disk[path(k)]==ser(v).",
        note="Assumed: the POSIX-style persistence model itself (a buffered writer may push any prefix before flush; fsync copies the OS "
             "cell to disk; directory entries durable on creation), join injective on normalised keys, single client. A real process kill "
             "is outside this family.",
        ref="DESIGN.md section 4 C17"),
}

NOT_APPLICABLE = {
    'C06': "relates results to the mathematical derivative of arbitrary Klong functions within float tolerances (central differences / torch autograd): no contract in reach can state or decide it (no derivative, no floats, external C++); see DESIGN.md section 5",
    'C08': "compares numeric behaviour of two external libraries (NumPy, PyTorch) through a forwarding facade; needs executable semantics of both; out of reach for contracts; see DESIGN.md section 5",
}

PENDING_REASON = "contracts for this property are not built yet in this tree (see DESIGN.md section 6 for the construction order); not claimed until its obligations are discharged by ./check"


def main():
    props = [json.loads(l) for l in open(os.path.join(VERIF, 'properties.jsonl'))]
    checks = []
    na = []
    for p in props:
        pid = p['id']
        if pid in CLAIMED:
            c = CLAIMED[pid]
            checks.append(dict(
                property_id=pid,
                quick_cmd=f"./check {pid} --tier quick",
                thorough_cmd=f"./check {pid} --tier thorough",
                evidence_file=f"/verif/evidence/{pid}.json",
                replay_cmd_template=f"./check {pid} --replay {{path}}",
                engine="pyvc",
                level_claimed=dict(category="proof", text=c['text'], design_ref=c['ref']),
                level_note=c['note'],
                technique=c.get('technique', TECH)))
        elif pid in NOT_APPLICABLE:
            na.append(dict(property_id=pid, reason=NOT_APPLICABLE[pid]))
        else:
            na.append(dict(property_id=pid, reason=PENDING_REASON))
    m = dict(
        version=1,
        setup_cmd="./setup.sh",
        hooks=dict(guard="KLONGPY_VERIF", enable="no hooks are needed: contracts are sidecar files and the checks read /repo's working tree as it is",
                   baseline_off_cmd="cd /repo && /venv/bin/python -m pytest -ra -q -p no:cacheprovider --timeout=900 --continue-on-collection-errors",
                   source_commits=[], add_only=True),
        engines=[dict(name="pyvc", path="/verif/pyvc", serves_properties=sorted(CLAIMED),
                      kind_free_text="verification-condition generator: forward symbolic execution of the Python ast of the real functions "
                                     "against sidecar contracts (requires/ensures/ensures_exc/invariants/variants/decreases/frames/ghost state); "
                                     "z3 5.1 + cvc5 back ends; Lean 4 for inductive lemmas about spec functions")],
        checks=checks,
        notes="Exit codes of ./check: 0 held, 1 VIOLATION (replay file names the failed obligation; counter-model replayed on the real code "
              "where possible), 2 UNDECIDED (solver unknown / construct refused / contract not attachable), 3 checker error or vacuity failure. "
              "Known findings and repaired defects: /verif/known_findings.json.",
        not_applicable=na)
    with open(os.path.join(VERIF, 'MANIFEST.json'), 'w') as f:
        json.dump(m, f, indent=1)
    print(f"MANIFEST.json: {len(checks)} checks, {len(na)} not_applicable")


if __name__ == '__main__':
    main()
