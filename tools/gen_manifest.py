#!/usr/bin/env python3
"""Regenerates MANIFEST.json from the table below (single source of truth for what is claimed)."""
import json
import os

VERIF = os.path.dirname(os.path.dirname(os.path.abspath(__file__)))

TECH = "contract-based deductive verification: sidecar contracts on the real /repo functions, VCs generated from their Python ast by pyvc, discharged by z3 (cvc5 second back end)"

CLAIMED = {
    'C12': dict(
        text="Termination of the real lexer and recursive-descent parser for every input string: every while loop has an integer variant "
             "(bounded below, strictly decreasing), the mutual recursion decreases the lexicographic measure (len(t)+1-i, rank), progress "
             "postconditions on every reader. Unbounded in the input; discharged by z3 from VCs generated from the current source.",
        note="Assumed: termination of callees outside the parser (get_fn_arity, is_empty, backend.kg_asarray, node constructors); Python ints "
             "mathematical; pyvc's encoding of the accepted Python subset. Not decided: the polynomial work bound; repeatability is argued from "
             "the frame, not an SMT obligation.",
        ref="DESIGN.md section 4 C12, Appendix A.1"),
}

NOT_APPLICABLE = {
    'C06': "relates results to the mathematical derivative of arbitrary Klong functions within float tolerances (central differences / torch autograd): no contract in reach can state or decide it (no derivative, no floats, external C++); see DESIGN.md section 5",
    'C08': "compares numeric behaviour of two external libraries (NumPy, PyTorch) through a forwarding facade; needs executable semantics of both; out of reach for contracts; see DESIGN.md section 5",
}

PENDING_REASON = "contracts for this property are not built yet in this tree (see DESIGN.md section 6 for the construction order); not claimed until its obligations are discharged by ./check"


def main():
    props = [json.loads(l) for l in open(os.path.join(VERIF, 'properties.jsonl'))]
    checks = []
    na = []
    for p in props:
        pid = p['id']
        if pid in CLAIMED:
            c = CLAIMED[pid]
            checks.append(dict(
                property_id=pid,
                quick_cmd=f"./check {pid} --tier quick",
                thorough_cmd=f"./check {pid} --tier thorough",
                evidence_file=f"/verif/evidence/{pid}.json",
                replay_cmd_template=f"./check {pid} --replay {{path}}",
                engine="pyvc",
                level_claimed=dict(category="proof", text=c['text'], design_ref=c['ref']),
                level_note=c['note'],
                technique=c.get('technique', TECH)))
        elif pid in NOT_APPLICABLE:
            na.append(dict(property_id=pid, reason=NOT_APPLICABLE[pid]))
        else:
            na.append(dict(property_id=pid, reason=PENDING_REASON))
    m = dict(
        version=1,
        setup_cmd="./setup.sh",
        hooks=dict(guard="KLONGPY_VERIF", enable="no hooks are needed: contracts are sidecar files and the checks read /repo's working tree as it is",
                   baseline_off_cmd="cd /repo && /venv/bin/python -m pytest -ra -q -p no:cacheprovider --timeout=900 --continue-on-collection-errors",
                   source_commits=[], add_only=True),
        engines=[dict(name="pyvc", path="/verif/pyvc", serves_properties=sorted(CLAIMED),
                      kind_free_text="verification-condition generator: forward symbolic execution of the Python ast of the real functions "
                                     "against sidecar contracts (requires/ensures/ensures_exc/invariants/variants/decreases/frames/ghost state); "
                                     "z3 5.1 + cvc5 back ends; Lean 4 for inductive lemmas about spec functions")],
        checks=checks,
        notes="Exit codes of ./check: 0 held, 1 VIOLATION (replay file names the failed obligation; counter-model replayed on the real code "
              "where possible), 2 UNDECIDED (solver unknown / construct refused / contract not attachable), 3 checker error or vacuity failure. "
              "Known findings and repaired defects: /verif/known_findings.json.",
        not_applicable=na)
    with open(os.path.join(VERIF, 'MANIFEST.json'), 'w') as f:
        json.dump(m, f, indent=1)
    print(f"MANIFEST.json: {len(checks)} checks, {len(na)} not_applicable")


if __name__ == '__main__':
    main()
