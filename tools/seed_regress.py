#!/usr/bin/env python3
"""Re-run every archived seeded change (seeded/<ID>-<k>/patch.diff) against the CURRENT /repo tree: apply, run the property's quick
check, undo.  A patch that no longer applies (the code it edits was repaired since) is listed as stale.  Writes seeded/REGRESS.json."""
import json, os, re, subprocess, sys
VERIF = os.path.dirname(os.path.dirname(os.path.abspath(__file__)))
REPO = '/repo'
only = sys.argv[1:]
out = {}
for d in sorted(os.listdir(os.path.join(VERIF, 'seeded'))):
    p = os.path.join(VERIF, 'seeded', d, 'patch.diff')
    if not os.path.exists(p) or (only and not any(d.startswith(o) for o in only)):
        continue
    pid = d.split('-')[0]
    if subprocess.run(['git', '-C', REPO, 'apply', '--check', p], capture_output=True).returncode != 0:
        out[d] = dict(stale=True)
        print(d, 'STALE (does not apply to the current tree)', flush=True)
        continue
    subprocess.run(['git', '-C', REPO, 'apply', p], check=True)
    try:
        r = subprocess.run([os.path.join(VERIF, '.venv/bin/python'), '-m', 'pyvc.run', pid], cwd=VERIF, capture_output=True, text=True, timeout=1800,
                           env=dict(os.environ, PYTHONWARNINGS='ignore', PYVC_OUT='/tmp/pyvc_seed_regress'))
    finally:
        subprocess.run(['git', '-C', REPO, 'checkout', '--', '.'], check=True)
    viol = [l for l in r.stdout.splitlines() if l.startswith('VIOLATION')]
    conf = [l for l in viol if not l.rstrip().endswith('no-failing-input-found')]
    out[d] = dict(rc=r.returncode, violations=len(viol), replayed=len(conf))
    print(d, out[d], flush=True)
import shutil
shutil.rmtree('/tmp/pyvc_seed_regress', ignore_errors=True)
if not only:
    json.dump(out, open(os.path.join(VERIF, 'seeded', 'REGRESS.json'), 'w'), indent=1)
bad = [d for d, v in out.items() if not v.get('stale') and v['rc'] != 1]
print('not reported:', bad)
