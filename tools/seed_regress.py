#!/usr/bin/env python3
"""Re-run every archived seeded change (seeded/<ID>-<k>/patch.diff) against the CURRENT /repo tree: apply, run the property's quick
check, undo.  A patch that no longer applies (the code it edits was repaired since) is listed as stale.  Writes seeded/REGRESS.json."""
import json, os, re, subprocess, sys
VERIF = os.path.dirname(os.path.dirname(os.path.abspath(__file__)))
REPO = os.environ.get('SEED_REPO', '/repo')          # a scratch worktree of /repo may be given instead
only = sys.argv[1:]
out = {}
for d in sorted(os.listdir(os.path.join(VERIF, 'seeded'))):
    p = os.path.join(VERIF, 'seeded', d, 'patch.diff')
    if not os.path.exists(p) or (only and not any(d.startswith(o) for o in only)):
        continue
    pid = d.split('-')[0]
    if subprocess.run(['git', '-C', REPO, 'apply', '--check', p], capture_output=True).returncode != 0:
        out[d] = dict(stale=True)
        print(d, 'STALE (does not apply to the current tree)', flush=True)
        continue
    subprocess.run(['git', '-C', REPO, 'apply', p], check=True)
    try:
        r = subprocess.run([os.path.join(VERIF, '.venv/bin/python'), '-m', 'pyvc.run', pid], cwd=VERIF, capture_output=True, text=True, timeout=1800,
                           env=dict(os.environ, PYTHONWARNINGS='ignore', PYVC_OUT='/tmp/pyvc_seed_regress', PYVC_REPO=REPO))
    finally:
        subprocess.run(['git', '-C', REPO, 'checkout', '--', '.'], check=True)
    viol = [l for l in r.stdout.splitlines() if l.startswith('VIOLATION')]
    conf = [l for l in viol if not l.rstrip().endswith('no-failing-input-found')]
    out[d] = dict(rc=r.returncode, violations=len(viol), replayed=len(conf))
    if 'retired' in json.load(open(os.path.join(VERIF, 'seeded', d, 'meta.json'))):
        out[d]['retired'] = True          # no longer property-breaking on the repaired tree (meta.json says why): the check has to be quiet
    print(d, out[d], flush=True)
import shutil
shutil.rmtree('/tmp/pyvc_seed_regress', ignore_errors=True)
rp = os.path.join(VERIF, 'seeded', 'REGRESS.json')
if only and os.path.exists(rp):
    out = dict(json.load(open(rp)), **out)          # a subset run refreshes its entries
json.dump(dict(sorted(out.items())), open(rp, 'w'), indent=1)
bad = [d for d, v in out.items() if not v.get('stale') and not v.get('retired') and v['rc'] != 1]
print('not reported:', bad)
print('retired but reported (alarm on a harmless change):', [d for d, v in out.items() if v.get('retired') and v['rc'] != 0])
