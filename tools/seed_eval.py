#!/usr/bin/env python3
"""Confirm a seeded property-breaking change and run the checks against it.

usage: tools/seed_eval.py <ID> <dir with patch.diff/demo.py/meta.json> [--checks C01,C09] [--no-tests]
 1. scratch worktree of /repo (created under a fresh mkdtemp, removed afterwards): patch applies, the package imports, the
    complete test suite passes, demo.py exits 1 there and exits 0 on the unchanged tree;
 2. /repo: `git apply` the patch, run ./check for the property (and any extra ones), `git checkout -- .` straight afterwards.
Writes eval.json next to the patch and prints a one-line verdict."""
import json
import os
import shutil
import subprocess
import sys
import tempfile

VERIF = os.path.dirname(os.path.dirname(os.path.abspath(__file__)))
PY = '/venv/bin/python'


def sh(cmd, cwd=None, timeout=3600, env=None):
    r = subprocess.run(cmd, shell=True, cwd=cwd, capture_output=True, text=True, timeout=timeout, env=env)
    return r.returncode, r.stdout + r.stderr


def main():
    pid, d = sys.argv[1], os.path.abspath(sys.argv[2])
    checks = [pid]
    run_tests = '--no-tests' not in sys.argv
    for i, a in enumerate(sys.argv):
        if a == '--checks':
            checks = sys.argv[i + 1].split(',')
    patch = os.path.join(d, 'patch.diff')
    demo = os.path.join(d, 'demo.py')
    out = dict(property=pid, dir=d)
    assert sh('git status --short', cwd='/repo')[1].strip() == '', '/repo is not clean'
    tmp = tempfile.mkdtemp(prefix='seedwt_')
    wt = os.path.join(tmp, 'wt')
    try:
        rc, o = sh(f'git -C /repo worktree add --detach {wt} HEAD')
        assert rc == 0, o
        env = dict(os.environ, PYTHONWARNINGS='ignore', KLONGPY_BACKEND='numpy')
        rc, o = sh(f'{PY} {demo}', cwd=wt, timeout=300, env=env)
        out['demo_unchanged'] = dict(rc=rc, tail=o[-300:])
        rc, o = sh(f'git apply {patch}', cwd=wt)
        out['applies'] = rc == 0
        if rc != 0:
            out['apply_error'] = o[-500:]
        else:
            rc, o = sh(f'{PY} -c "import klongpy, sys; print(klongpy.__file__)"', cwd=wt, env=env)
            out['imports'] = rc == 0 and wt in o
            rc, o = sh(f'{PY} {demo}', cwd=wt, timeout=300, env=env)
            out['demo_changed'] = dict(rc=rc, tail=o[-400:])
            if run_tests:
                rc, o = sh(f'{PY} -m pytest -q -p no:cacheprovider --timeout=900 2>&1 | tail -12', cwd=wt, timeout=3000, env=env)
                out['tests'] = o.strip().splitlines()[-1] if o.strip() else ''
                out['tests_pass'] = (' failed' not in out['tests']) and (' error' not in out['tests']) and ('passed' in out['tests'])
                failed = [l.split()[1] for l in o.splitlines() if l.startswith('FAILED ')]
                flaky = ('test_cli_exit', 'test_timer_return_1_cancel')
                if not out['tests_pass'] and failed and all(any(f in t for f in flaky) for t in failed):
                    # the two timing-dependent tests fail under load on the unchanged tree too: re-run just them, alone
                    ok_alone = True
                    for t in failed:
                        good = False
                        for _ in range(3):
                            rc2, o2 = sh(f'{PY} -m pytest -q -p no:cacheprovider --timeout=900 "{t.split(" ")[0]}" 2>&1 | tail -2', cwd=wt, timeout=600, env=env)
                            if ' passed' in o2 and ' failed' not in o2:
                                good = True
                                break
                        ok_alone = ok_alone and good
                    out['tests'] += f" | timing-dependent tests re-run alone: {'pass' if ok_alone else 'FAIL'} ({failed})"
                    out['tests_pass'] = ok_alone
    finally:
        sh(f'git -C /repo worktree remove --force {wt}')
        shutil.rmtree(tmp, ignore_errors=True)
        sh('git -C /repo worktree prune')
    out['checks'] = {}
    if out.get('applies'):
        try:
            rc, o = sh(f'git -C /repo apply {patch}')
            assert rc == 0, o
            for c in checks:
                rc, o = sh(f'./check {c}', cwd=VERIF, timeout=3000)
                lines = [l for l in o.splitlines() if l.startswith(('VIOLATION', 'UNDECIDED', 'KNOWN-FINDING', 'VACUITY', 'CHECKER'))]
                out['checks'][c] = dict(rc=rc, lines=lines[:6], confirmed=any(l.startswith('VIOLATION') and 'no-failing-input-found' not in l for l in lines))
        finally:
            sh('git -C /repo checkout -- .')
            assert sh('git status --short', cwd='/repo')[1].strip() == ''
    json.dump(out, open(os.path.join(d, 'eval.json'), 'w'), indent=1)
    valid = out.get('applies') and out.get('imports') and out.get('tests_pass', not run_tests) and \
        out['demo_unchanged']['rc'] == 0 and out.get('demo_changed', {}).get('rc') == 1
    caught = [c for c, r in out['checks'].items() if r['rc'] == 1]
    print(f"{pid} {os.path.basename(d)} valid={bool(valid)} tests={out.get('tests')} demo={out['demo_unchanged']['rc']}/{out.get('demo_changed', {}).get('rc')} "
          f"caught_by={caught} " + ' '.join(f"{c}:rc={r['rc']}" for c, r in out['checks'].items()))
    for c, r in out['checks'].items():
        for l in r['lines'][:3]:
            print('   ', l[:220])


if __name__ == '__main__':
    main()
